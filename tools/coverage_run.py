"""Development / evidence helper: which lines of /repo/src/rimu do the property generators reach?

Runs the oracle-only cases of the named properties (all by default) under a line tracer restricted to the rimu and
rimuc packages of the working tree and prints, per file, the executable lines never reached, with their source text.
A line nobody reaches is a place where a change to the code cannot be seen by the correspondence check: the list is
what the generators are extended from.  Not registered in the manifest (the tracer slows rendering about ten times).

usage: PYTHONPATH=/repo/src /venv/bin/python tools/coverage_run.py [--n 300] [--json out.json] [Cxx ...]
"""
import argparse
import dis
import json
import os
import sys
import threading
import types

HERE = os.path.dirname(os.path.abspath(__file__))
sys.path.insert(0, HERE)
REPO = os.environ.get('RIMU_REPO', '/repo')
SRC = os.path.realpath(os.path.join(REPO, 'src'))

hit = {}


def tracer(frame, event, arg):
    fn = frame.f_code.co_filename
    if not fn.startswith(SRC):
        return None
    lines = hit.setdefault(fn, set())

    def local(frame, event, arg):
        if event == 'line':
            lines.add(frame.f_lineno)
        return local
    lines.add(frame.f_lineno)
    return local


def executable_lines(path):
    with open(path) as f:
        code = compile(f.read(), path, 'exec')
    out = set()
    stack = [code]
    while stack:
        c = stack.pop()
        for _, ln in dis.findlinestarts(c):
            if ln:
                out.add(ln)
        for k in c.co_consts:
            if isinstance(k, types.CodeType):
                stack.append(k)
    return out


def main():
    ap = argparse.ArgumentParser()
    ap.add_argument('--n', type=int, default=300)
    ap.add_argument('--json')
    ap.add_argument('props', nargs='*')
    args = ap.parse_args()
    import harness.props as props
    ids = args.props or sorted(props.REGISTRY)
    per_prop = {}
    for pid in ids:
        prop = props.REGISTRY[pid]()
        prop.quick_cases = args.n
        prop.thorough_cases = args.n
        ctx = props.Context(repo=REPO, seed=0, tier='quick', model_ok=False)
        before = {k: set(v) for k, v in hit.items()}
        sys.settrace(tracer)
        threading.settrace(tracer)
        try:
            res = props.run_property(prop, ctx)
        finally:
            sys.settrace(None)
            ctx.close()
        new = sum(len(v - before.get(k, set())) for k, v in hit.items())
        per_prop[pid] = {'cases': res.evaluations, 'violations': len(res.violations), 'new_lines': new}
        print(pid, per_prop[pid], flush=True)
    report = {}
    total_exec = total_hit = 0
    for root, _dirs, files in os.walk(SRC):
        for fn in sorted(files):
            if not fn.endswith('.py'):
                continue
            path = os.path.join(root, fn)
            ex = executable_lines(path)
            got = hit.get(path, set()) & ex
            src = open(path).read().split('\n')
            # definitions (def/class lines, module constants) execute at import, before the tracer: count from function bodies
            missed = sorted(ln for ln in ex - got if not src[ln - 1].lstrip().startswith(('def ', 'class ', 'import ', 'from ', '@')))
            missed = [ln for ln in missed if path in hit or True]
            rel = os.path.relpath(path, SRC)
            report[rel] = {'executable': len(ex), 'reached': len(got), 'missed': [[ln, src[ln - 1].strip()[:110]] for ln in missed]}
            total_exec += len(ex)
            total_hit += len(got)
    print('\nlines reached: %d of %d executable' % (total_hit, total_exec))
    for rel, r in sorted(report.items()):
        body = [m for m in r['missed']]
        print('\n== %s: %d/%d' % (rel, r['reached'], r['executable']))
        for ln, text in body:
            print('   %4d  %s' % (ln, text))
    if args.json:
        with open(args.json, 'w') as f:
            json.dump({'per_property': per_prop, 'files': report}, f, indent=1)


if __name__ == '__main__':
    main()
