#!/venv/bin/python
"""Run with the interpreter the checks use (/venv/bin/python tools/mkfingerprint.py).  Record the code fingerprint of /repo's current tree (run on the clean tree after every change to /repo that the model
has been validated against): tools/source_fingerprint.json.  A tree that differs from it gets a longer search in the quick
tier (tools/check.py: source_changed)."""
import json
import os
import subprocess
import sys

HERE = os.path.dirname(os.path.abspath(__file__))
sys.path.insert(0, HERE)
import check  # noqa: E402

dirty = subprocess.run(['git', '-C', check.REPO, 'status', '--short'], capture_output=True, text=True).stdout.strip()
if dirty:
    sys.exit('refusing: %s has uncommitted changes\n%s' % (check.REPO, dirty))
with open(check.FINGERPRINT, 'w') as f:
    fp = check.source_fingerprint()
    fp['python'] = '%d.%d' % sys.version_info[:2]
    json.dump(fp, f, indent=1, sort_keys=True)
print('wrote', check.FINGERPRINT)
