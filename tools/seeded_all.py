#!/venv/bin/python
"""Confirm every kept seeded change (scratch worktree: tests pass, demo fails with it, passes without), then apply each
to /repo, run the quick check of its property, undo it, and record what was run in its meta.json.
usage: tools/seeded_all.py [name ...]"""
import json
import os
import re
import subprocess
import sys

VERIF = os.path.dirname(os.path.dirname(os.path.abspath(__file__)))


def sh(cmd):
    return subprocess.run(cmd, shell=True, capture_output=True, text=True)


def main():
    names = sys.argv[1:] or sorted(os.listdir(os.path.join(VERIF, 'seeded')))
    rows = []
    for name in names:
        d = os.path.join(VERIF, 'seeded', name)
        meta_path = os.path.join(d, 'meta.json')
        meta = json.load(open(meta_path))
        pid = meta.get('property') or name.split('-')[0]
        conf = sh('%s/tools/seeded_confirm.sh %s' % (VERIF, name)).stdout.strip().splitlines()[-1]
        ev = sh('%s/tools/seeded_eval.sh %s %s' % (VERIF, name, pid)).stdout.strip().splitlines()[-1]
        dirty = sh('git -C %s status --short' % os.environ.get('RIMU_REPO', '/repo')).stdout.strip()
        m = re.search(r'exit=(\d+) :: (.*?) :: (.*)$', ev)
        verdict = 'missed'
        if m and m.group(1) == '1' and 'VIOLATION' in m.group(2):
            verdict = 'caught: proof or correspondence broke, no failing input found' if 'no-failing-input-found' in m.group(2) \
                else 'caught with a failing input'
        meta['verified'] = {
            'confirmed_in_scratch_worktree': conf,
            'commands': ['tools/seeded_confirm.sh %s   # git worktree under /tmp: demo on clean tree, apply patch, pytest, demo again' % name,
                         'git -C /repo apply seeded/%s/patch.diff; ./check %s --tier quick; git -C /repo checkout -- .' % (name, pid)],
            'check_result': ev,
            'verdict': verdict,
        }
        json.dump(meta, open(meta_path, 'w'), indent=1, ensure_ascii=False)
        rows.append((name, pid, conf, verdict))
        print(name, '|', conf, '|', verdict, '| repo dirty!' if dirty else '', flush=True)
    return 0


if __name__ == '__main__':
    sys.exit(main())
