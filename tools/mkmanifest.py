#!/usr/bin/env python3
"""Writes MANIFEST.json from the table below (kept in one place so that it stays valid)."""
import json, os
HERE = os.path.dirname(os.path.abspath(__file__))
VERIF = os.path.dirname(HERE)

COMMON_NOTE = ('Trusted: Lean 4.33 kernel; axioms propext, Classical.choice, Quot.sound only (audited with #print axioms on every run); '
               'the translator (CPython re._parser -> Re, Unicode tables from the interpreter); the hand-written Lean mirror of the Python '
               'control flow, tied to the code only by the correspondence check (model driver vs implementation in-process); model matcher = sre '
               'on the well-formed fragment (validated, not proved). ')

CLAIMS = {
 'C04': dict(
    text='Proved for the model, for every source, session state, fuel and compile oracle: a document render started in a non-zero safe mode '
         'leaves quote/replacement/block definitions, replacement text and safe mode unchanged, and macro definitions unless bit 8 is set '
         '(relation Step pushed through all of the block and inline layers by induction on fuel). The correspondence check compares module-table '
         'snapshots of implementation and model after untrusted renders that follow trusted preambles.',
    note=COMMON_NOTE + 'Full strength for the model; object aliasing in the Python code is not expressible in the model and is covered by the snapshots only.',
    technique='Lean 4 proof: invariant relation (Step) by weakest-precondition tactic over the whole model + differential correspondence',
    ref='7 C04'),
 'C01': dict(
    text='Proved for the model, for every source, option set, fuel and compile oracle, from a fresh process and from every session that any history of render '
         'calls can reach (render_from_any_reachable_session): a render call returns, or ends in an outcome that is not a Python exception (fuel exhausted, '
         'a run-time pattern outside the modelled fragment), or raises at one of the residual sites enumerated in the Lean definition `residual`. Every other '
         'raise site of the model is unreachable: no match group read as a string is None or missing (all 50 call sites: delimiter, class-name, marker, '
         'term, definition and template groups, for every block table a session can hold), no params[0] / opt[0] / match[1][0] / match[0][0] of a line, list '
         'or non-paragraph block rule indexes an empty string, the reader is never read at end of input, the stack of open list ids is never popped when empty, int() accepts the digits of every $n, the quote captured by the quote pattern '
         'is a non-empty quote of the table, the close tag of a block definition is never None. Also: options never raise; an ill-formed replacement regex is '
         'reported; the fragmenting loop terminates for every pattern. Residual (decided by the correspondence check, which requires both sides to raise the '
         'same kind of exception or none): the placeholder queue, three `m is not None` assertions and match[0][0] of a paragraph '
         '(need completeness of the matcher), the filter groups of a re-compiled default replacement pattern.',
    note=COMMON_NOTE + 'Partial: the footprint theorem is a proof for the model with the residual sites named; totality on those sites, the Python recursion limit '
         'and memory are exploration (stress stream, correspondence). F5 is an open known finding (known_findings.json).',
    technique='Lean 4 proof (total-outcome triples wpE pushed through the whole model by a program-shape tactic; session invariant; static regex analyses: group '
              'participation, group non-emptiness, literal alternation) + differential correspondence with exception kinds',
    ref='7 C01'),
 'C09': dict(
    text='Proved for the model: the generated code / indented block definitions process special characters only and the generated code quotes are non-span; with such '
         'options and no pending block options the block text is transformed by exactly replaceSpecialChars with no state change, for every text; '
         'replaceSpecialChars is the identity away from < > &. The dispatch of the fence lines and the placeholder restoration inside code quotes are evaluated in '
         'the kernel on concrete instances and checked on generated code regions filled with markup of every other kind, all 16 safe modes.',
    note=COMMON_NOTE + 'Partial: the transformation theorem is universal; that a given fenced / indented / backtick region reaches it (dispatch) is by kernel evaluation of instances and exploration.',
    technique='Lean 4 proof of the verbatim transformation + facts on regenerated definition tables + kernel-evaluated instances + differential correspondence',
    ref='7 C09'),
 'C11': dict(
    text='Proved for the model: macros.setValue is skipped where definitions are not allowed, keeps the blank macro blank (with a diagnostic), replaces the value of '
         'an existing name, never overrides through an existential definition, appends a new name; lookup after update returns the new value; an escaped '
         'invocation is left as written without its backslash; a simple invocation of a defined macro is its value, of an undefined one the invocation itself '
         'with exactly one diagnostic unless silent. Parameter substitution and inclusion/exclusion are evaluated in the kernel on instances and checked '
         'against hand-substituted twin documents.',
    note=COMMON_NOTE + 'Partial: table semantics and the simple/escaped/undefined cases are universal proofs; parametrised, inclusion and exclusion forms are exploration.',
    technique='Lean 4 proof (equational, macro table semantics) + kernel-evaluated instances + twin-document oracle',
    ref='7 C11'),
 'C12': dict(
    text='Proved for the model, independent of any regex: injectHtmlAttributes on a non-empty tag leaves nothing pending; on an empty tag it consumes nothing; with '
         'nothing pending it returns the tag unchanged and changes no state (so blocks after the consumer are untouched); with safe-mode bit 4 an attribute '
         'line has no effect; every delimited-block step ends with the block options cleared. The correspondence check compares documents with and '
         'without attribute lines in all 16 modes, HTML-block targets included.',
    note=COMMON_NOTE + 'The consume-once state machine is proved; that each block rule calls the injector on its first tag is by correspondence/exploration.',
    technique='Lean 4 proof (state machine of blockattributes, wp) + with/without-attributes oracle',
    ref='7 C12'),
 'C13': dict(
    text='Proved for the model: htmlSafeModeFilter returns the text / nothing / the replacement / the escaped text according to safeMode & 3, and an unescaped inline '
         'HTML tag or comment becomes exactly that value whatever the definition template; the policy bits are read nowhere else in the model source. That the '
         'rest of the rendering is independent of the policy is not proved (a two-run statement); it is decided by aligning the three outputs around a fresh '
         'sentinel on generated sources, higher bits 0/4/8/12.',
    note=COMMON_NOTE + 'Partial: policy semantics proved; policy-independence of the surrounding markup is exploration.',
    technique='Lean 4 proof of the policy function + three-policy alignment oracle',
    ref='7 C13'),
 'C14': dict(
    text='Proved for the model: a render call without options on an initialised session is exactly document.render on the state the previous call left (only the '
         'callback registration is dropped), for every successful first call - so definitions, options, ids and pending attributes carry across calls exactly as '
         'across blocks. The sequencing property of document.render itself (C08) is not proved; pairs and triples of complete documents are rendered split and '
         'joined and compared (html modulo newlines, diagnostics as sets, final state).',
    note=COMMON_NOTE + 'Partial: API-layer transparency proved; block sequencing is exploration.',
    technique='Lean 4 proof (API prefix is the identity) + split-versus-joined oracle',
    ref='7 C14'),
 'C15': dict(
    text='Proved for the model: slugify changes no state and returns an id that is not registered - the base slug if free, else base-n for the least free n >= 2; '
         'injectId lower-cases the id, registers it when new (no diagnostic) and otherwise issues exactly one duplicate-id diagnostic and registers nothing; the '
         'attribute written is the lower-cased id; across any render call, in any session, the registry of ids stays free of duplicates (registry_stays_duplicate_free: an invariant '
         'pushed through every function of the block layer). Sessions with colliding, empty and suffix-looking slugs, ids on every kind of block and per-call safe modes are '
         'compared with a reference allocation.',
    note=COMMON_NOTE + 'str.lower is the generated per-character table plus the final-sigma rule (validated against CPython by the lower op of the driver, not proved).',
    technique='Lean 4 proof (suffix search by induction, registry state machine) + reference-allocation oracle',
    ref='7 C15'),
 'C16': dict(
    text='Proved for the model: a source and its copy with U+0000-2 replaced by blanks have the same reader, hence the same rendering; no line handed to the renderer '
         'contains a reserved code point; placeholders are restored from the queue in order, each exactly once, a missing entry is an IndexError and the '
         'restored output contains no placeholder; the split pattern is the tree of \\r\\n|\\r|\\n and on it the model matcher is characterised completely: '
         'the lines the reader sees are those of the list function splitNl, so re-encoding CR LF and CR as LF gives the same reader and the same rendering for every source '
         '(line_terminators_are_interchangeable). Re-encoded twins (uniform and mixed) are also rendered and compared on the implementation.',
    note=COMMON_NOTE + 'Full for the two invariance clauses (terminators, reserved characters as blanks); the clause that no reserved character reaches the output is proved for placeholder restoration given a clean queue, not for every reachable session. That the implementation has no other consumer of raw carriage returns is what the twin oracle explores.',
    technique='Lean 4 proof (reader blanking, complete characterisation of the line-split matcher, placeholder queue induction) + re-encoded twin oracle',
    ref='7 C16'),
 'C17': dict(
    text='Proved for the model, for every rule and line: when the first rule that matches the line matches it with its leading backslash, no filter runs, no state '
         'changes, nothing is written and the reader keeps the line without the backslash, marked escaped; an escaped line is then passed over by every line rule, '
         'list rule and delimited-block rule except the paragraph; an escaped match of any replacement definition is its literal text. All 18 line-level '
         'element kinds are evaluated in the kernel; 1-8 escaped inline elements per paragraph are checked by the oracle.',
    note=COMMON_NOTE + 'Known finding F21 (two-character quotes escaped twice in one paragraph) is outside the generator and replayed separately.',
    technique='Lean 4 proof (dispatch equations) + kernel-evaluated instances per element kind + literal-text oracle',
    ref='7 C17'),
 'C18': dict(
    text='Proved for the model of rimuc.main: the planned inputs are the documented ordered concatenation; trust is decided by position, never by name; named files and '
         'stdin are rendered under the requested safe mode and everything else at 0; illegal --safe-mode, unknown --layout and missing option values are '
         'one-line usage errors with exit 1; exit status is 1 iff an error diagnostic was counted, output goes trimmed to stdout or the output file. '
         'rimuc.main() is run in-process against the model and against the pipeline replayed through rimu.render.',
    note=COMMON_NOTE + 'File system, text decoding, sys.argv and HOME are parameters of the model (trusted).',
    technique='Lean 4 proof (list manipulation over the plan) + in-process differential test of rimuc.main',
    ref='7 C18'),
 'C02': dict(
    text='(a) Termination, proved for the model: the fragmenting loop terminates within |text|+1 steps for every replacement pattern and the escaped-quote search '
         'within |text|+2, so the inline layer never exhausts its own fuel; line-macro expansions never nest deeper than MAX_EXPANSION_DEPTH and a refused expansion '
         'inserts nothing; every pattern iterated by sub/split/fragmenting consumes at least one character per match (regenerated facts). Fuel is only a '
         'termination device (fuel_is_only_a_termination_device): a render of the model that ends in anything but outOfFuel ends identically at every larger fuel, '
         'for every function of the model, so the answers the theorems speak about do not depend on the fuel. A fuel bound for '
         'the block-level loops is not proved. (b) Bounded work is exploration: pumped inputs (4 KB quick / 8 KB thorough) in safe modes 1-7 must render within a '
         'CPU-time ceiling with at most quadratic growth; recursive-macro documents must finish on the implementation whenever the model terminates.',
    note=COMMON_NOTE + 'Partial: termination of the inline layer and the depth bound are proofs; block-level termination bound and the running time of CPython sre are '
         'exploration (timing), as DESIGN.md says.',
    technique='Lean 4 proof (fuel adequacy by induction using regex search bounds; expansion depth invariant) + deterministic pumping with CPU-time ceiling',
    ref='7 C02'),
 'C06': dict(
    text='Proved for the model: for every text and quote table the fragment list produced by fragQuote is a tree - text, or text / open tag of a definition / tree of the '
         'quoted text (or one finished verbatim fragment) / close tag of the same definition / tree of the rest - so quote tags are emitted in properly nested pairs '
         'and overlapping delimiters cannot cross; a delimited block writes open tag, content, close tag adjacently; every generated tag pair is a matching pair '
         '(regenerated fact). Balance of the complete output for every source is not proved; a tag stack over the tokenised output decides it on generated sources '
         '(safe modes with HTML policy, and <-free sources at safe mode 0).',
    note=COMMON_NOTE + 'Partial: quote nesting is a universal proof; lists and whole-output balance are exploration.',
    technique='Lean 4 proof (inductive tree invariant of the quote fragmenter) + tag-stack oracle',
    ref='7 C06'),
 'C07': dict(
    text='Proved for the model, universally: the fragments of a replacement pass partition the text (nothing lost or duplicated); a replaced fragment is opaque to every later '
         'definition and to the quote pass; definitions are applied in table order, and the generated table has the documented order and templates. The element '
         'structure per construct kind is evaluated in the kernel on instances and checked by the term-grammar oracle (7 quotes + defined ones, 11 replacement forms, '
         'nesting depth 3, every safe mode); no grammar-level theorem is proved.',
    note=COMMON_NOTE + 'Partial: partition / opacity / order are universal proofs; term grammar -> expected html is exploration.',
    technique='Lean 4 proof (partition by induction with regex search bounds) + term-grammar oracle',
    ref='7 C07'),
 'C08': dict(
    text='Proved for the model: reading a block to its closing delimiter and skipping blank lines do not depend on the lines that follow (they are carried along untouched); '
         'every delimited-block step clears the block options and a written tag consumes the attributes (C12); definitions and options change only through their elements '
         '(C04); the generated tables map each block kind to its element and headers to h + marker length for all six lengths (kernel evaluation); output already written is '
         'never read back or rewritten - rendering the rest of a document from a writer holding earlier output equals rendering it from an empty writer with that output in front '
         '(earlier_output_is_never_read_or_rewritten: two runs on related writers in lockstep, every block kind, lists and containers). That each block extends over exactly '
         'the source lines the property says (sequencing of arbitrary blocks) is not proved; the block-grammar oracle checks document output = concatenation of blocks rendered alone and containers = tag pair around content.',
    note=COMMON_NOTE + 'Partial: locality components, append-only output and kind-to-element facts are proofs; the source extent of each block is exploration.',
    technique='Lean 4 proof (reader locality by induction, regenerated table facts) + block-grammar oracle',
    ref='7 C08'),
 'C10': dict(
    text='Proved for the model: each of the 13 markers is recognised by the generated list rules with itself as list id and mapped to ul/ol/dl with li or dt/dd (decided over '
         'the whole finite marker table in the kernel); after an item a next item whose id is on the stack of open lists is handed back to the enclosing lists, any other '
         'id opens a child list inside the current item; two blank lines or end of input end the item loop; a list - whatever it nests: child lists, attached blocks, '
         'containers with lists of their own - returns with the stack of open markers exactly as it found it, and never pops it when empty. The marker-machine = tree-specification theorem is not proved; '
         'generated list trees (depth 4, mixed kinds, attached blocks, blank lines, following block) are compared with the tree the generator built.',
    note=COMMON_NOTE + 'Partial: classification table and the two branch theorems are proofs; the full tree equivalence is exploration.',
    technique='Lean 4 proof (exhaustive kernel evaluation over the marker table, item-loop equations) + list-tree oracle',
    ref='7 C10'),
 'C19': dict(
    text='Proved for the model, as equations: each documented diagnostic is issued exactly under its condition and has no other effect - unterminated code/comment/division/quote '
         'block iff the reader is at end of input after the search for the closing delimiter; illegal block option; unknown block name; (C11) undefined macro; (C20) illegal '
         'option value; (C01) ill-formed replacement pattern; without a callback a diagnostic changes nothing and with one it only appends to the log. That the html of a '
         'whole render is independent of the callback and that well-formed documents produce no diagnostic are not proved; the oracle renders generated well-formed '
         'documents (zero diagnostics) and their single-fault mutations (exactly the expected diagnostic), with and without a callback.',
    note=COMMON_NOTE + 'Partial: emission conditions are proofs; non-interference and the well-formed clause are exploration.',
    technique='Lean 4 proof (emission equations) + fault-mutation oracle',
    ref='7 C19'),
 'C03': dict(
    text='Proved for the model, universally: text that leaves through replaceSpecialChars has no < or > and every & starts one of its three entities; a group '
         'substituted for $n in any template contains no ", < or > whatever the source and macro table (it cannot end its attribute value or open a tag); '
         'the HTML policy emits nothing / the replacement / the escaped text; the groups that reach attributes unescaped (CSS, class names, ids, delimiter '
         'class names) cannot contain " resp. any of " < > & - facts of the regenerated regular expressions lifted to all inputs by a group-alphabet '
         'analysis proved sound against the matcher semantics; definitions stay the defaults in safe modes (C04); in a non-zero safe mode a block whose '
         'definition escapes special characters is rendered with them escaped whatever block options are pending, a -specials left by an earlier trusted '
         'render included (F29), and -specials is refused there. The composition into "the whole output is in '
         'the safe language" is not proved: it is decided by a strict output tokenizer on generated hostile sessions in the 12 modes, on implementation and model.',
    note=COMMON_NOTE + 'Partial: component theorems + regenerated facts are proofs; the end-to-end statement is exploration (strict tokenizer) and the manifest says so.',
    technique='Lean 4 proof of the escaping / group-alphabet components (static analysis on regenerated regexes, sound w.r.t. matcher semantics) + differential correspondence + strict output tokenizer',
    ref='7 C03'),
 'C05': dict(
    text='Proved for the model: with reset=True or "true" the html (or exception) and the messages of a render call are the same from any two sessions '
         'whatever (reset_render_depends_only_on_source_and_options), and the final sessions are equal outside lists.ids, spans.savedReplacements and the message log; '
         'more generally no render call, with or without reset, depends on those two scratch registers (render_ignores_scratch_registers: a two-run '
         'non-interference relation pushed through every function of the model; a top-level list and spans.render overwrite their register before '
         'anything reads it). The correspondence check runs histories that customise every kind of '
         'definition, allocate ids, leave attributes pending, end inside unterminated blocks or are abandoned by a raising callback, then compares the reset '
         'render with the same call on import-time state and (for a sample) in a fresh interpreter, on implementation and model.',
    note=COMMON_NOTE + 'The model has no object '
         'aliasing: a default definition object mutated in place can only be seen by the fresh-interpreter comparison.',
    technique='Lean 4 proof: reset prefix computes a constant state (equational); two-run non-interference of the scratch registers (NIP) + differential correspondence against a fresh interpreter',
    ref='7 C05'),
 'C20': dict(
    text='Proved for the model: setOption rejects a non-integer or out-of-range safeMode with exactly one diagnostic and an unchanged state, accepts a legal '
         'one; the safe mode of every session reachable from a fresh process by any history of render calls is -1 (before first use) or in 0..15 (induction '
         'over histories, using the Step relation for documents); options not given keep their value; reset restores the defaults before the other options; '
         'option elements in a document rendered at a non-zero safe mode change neither safe mode nor replacement text. The correspondence check compares '
         'option state after every step of 1-4 call sequences with a reference state machine written from the statement, and with the model.',
    note=COMMON_NOTE + 'Full strength for the model. Python values passed as options are modelled by the PyVal type (None, bool, int, float repr, str).',
    technique='Lean 4 proof: option state machine (equational) + invariant over reachable sessions + differential correspondence',
    ref='7 C20'),
}

def main():
    props = [json.loads(l) for l in open(os.path.join(VERIF, 'properties.jsonl'))]
    checks = []
    na = []
    for p in props:
        pid = p['id']
        if pid in CLAIMS and os.path.exists(os.path.join(VERIF, 'lean', 'RimuProofs', 'Props', pid + '.lean')):
            c = CLAIMS[pid]
            checks.append({
                'property_id': pid,
                'quick_cmd': './check %s --tier quick' % pid,
                'thorough_cmd': './check %s --tier thorough' % pid,
                'evidence_file': 'evidence/%s.json' % pid,
                'replay_cmd_template': './check %s --replay {path}' % pid,
                'engine': 'lean-model',
                'level_claimed': {'category': 'proof', 'text': c['text'], 'design_ref': 'DESIGN.md section ' + c['ref']},
                'level_note': c['note'],
                'technique': c['technique'],
            })
        else:
            na.append({'property_id': pid, 'reason': 'not claimed in this commit: the property theorems (lean/RimuProofs/Props/%s.lean) are not written yet; '
                       'the oracle and correspondence surface exist in tools/harness' % pid})
    m = {
        'version': 1,
        'setup_cmd': './setup.sh',
        'hooks': {'guard': 'RIMU_PY_VERIF', 'enable': 'no hooks are needed: state is read from module globals, diagnostics through the public callback '
                  '(the checks export RIMU_PY_VERIF=1 for uniformity; nothing in /repo reads it)',
                  'baseline_off_cmd': 'cd /repo && /venv/bin/python -m pytest -ra -q -p no:cacheprovider --timeout=900 --continue-on-collection-errors',
                  'source_commits': [], 'add_only': True},
        'engines': [{'name': 'lean-model', 'path': 'lean/', 'serves_properties': [c['property_id'] for c in checks],
                     'kind_free_text': 'Lean 4 executable model of rimu-py (regex matcher, renderer, CLI) regenerated tables from /repo on every run, '
                                       'property theorems in lean/RimuProofs/Props, native driver behind a line protocol for the correspondence check'}],
        'checks': checks,
        'notes': 'Every check: regenerate lean/RimuModel/Generated from /repo, lake build model + driver + closure of the property theorems, axiom audit, '
                 'correspondence + concrete oracle on the property surface, known findings replayed (known_findings.json). See DESIGN.md.',
        'not_applicable': na,
    }
    with open(os.path.join(VERIF, 'MANIFEST.json'), 'w') as f:
        json.dump(m, f, indent=1)
    print('checks', len(checks), 'not claimed', len(na))

if __name__ == '__main__':
    main()
