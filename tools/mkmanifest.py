#!/usr/bin/env python3
"""Writes MANIFEST.json from the table below (kept in one place so that it stays valid)."""
import json, os
HERE = os.path.dirname(os.path.abspath(__file__))
VERIF = os.path.dirname(HERE)

COMMON_NOTE = ('Trusted: Lean 4.33 kernel; axioms propext, Classical.choice, Quot.sound only (audited with #print axioms on every run); '
               'the translator (CPython re._parser -> Re, Unicode tables from the interpreter); the hand-written Lean mirror of the Python '
               'control flow, tied to the code only by the correspondence check (model driver vs implementation in-process); model matcher = sre '
               'on the well-formed fragment (validated, not proved). ')

CLAIMS = {
 'C04': dict(
    text='Proved for the model, for every source, session state, fuel and compile oracle: a document render started in a non-zero safe mode '
         'leaves quote/replacement/block definitions, replacement text and safe mode unchanged, and macro definitions unless bit 8 is set '
         '(relation Step pushed through all of the block and inline layers by induction on fuel). The correspondence check compares module-table '
         'snapshots of implementation and model after untrusted renders that follow trusted preambles.',
    note=COMMON_NOTE + 'Full strength for the model; object aliasing in the Python code is not expressible in the model and is covered by the snapshots only.',
    technique='Lean 4 proof: invariant relation (Step) by weakest-precondition tactic over the whole model + differential correspondence',
    ref='7 C04'),
 'C03': dict(
    text='Proved for the model, universally: text that leaves through replaceSpecialChars has no < or > and every & starts one of its three entities; a group '
         'substituted for $n in any template contains no ", < or > whatever the source and macro table (it cannot end its attribute value or open a tag); '
         'the HTML policy emits nothing / the replacement / the escaped text; the groups that reach attributes unescaped (CSS, class names, ids, delimiter '
         'class names) cannot contain " resp. any of " < > & - facts of the regenerated regular expressions lifted to all inputs by a group-alphabet '
         'analysis proved sound against the matcher semantics; definitions stay the defaults in safe modes (C04). The composition into "the whole output is in '
         'the safe language" is not proved: it is decided by a strict output tokenizer on generated hostile sessions in the 12 modes, on implementation and model.',
    note=COMMON_NOTE + 'Partial: component theorems + regenerated facts are proofs; the end-to-end statement is exploration (strict tokenizer) and the manifest says so.',
    technique='Lean 4 proof of the escaping / group-alphabet components (static analysis on regenerated regexes, sound w.r.t. matcher semantics) + differential correspondence + strict output tokenizer',
    ref='7 C03'),
 'C05': dict(
    text='Proved for the model: with reset=True or "true" the whole result of a render call (html or exception, messages, final state) is the same '
         'from any two sessions that agree on lists.ids, spans.savedReplacements and the log, in particular the same as in a fresh process; '
         'spans.render is shown not to read the leftover placeholder queue. The correspondence check runs histories that customise every kind of '
         'definition, allocate ids, leave attributes pending and end inside unterminated blocks, then compares the reset render with the same call on '
         'import-time state and (for a sample) in a fresh interpreter, on implementation and model.',
    note=COMMON_NOTE + 'Partial in one respect, named in the theorem: independence from the two scratch registers that document.init does not reset '
         '(lists.ids, spans.savedReplacements) is proved for spans.render only and otherwise observed by the correspondence check. The model has no object '
         'aliasing: a default definition object mutated in place can only be seen by the fresh-interpreter comparison.',
    technique='Lean 4 proof: reset prefix computes a constant state (equational) + differential correspondence against a fresh interpreter',
    ref='7 C05'),
 'C20': dict(
    text='Proved for the model: setOption rejects a non-integer or out-of-range safeMode with exactly one diagnostic and an unchanged state, accepts a legal '
         'one; the safe mode of every session reachable from a fresh process by any history of render calls is -1 (before first use) or in 0..15 (induction '
         'over histories, using the Step relation for documents); options not given keep their value; reset restores the defaults before the other options; '
         'option elements in a document rendered at a non-zero safe mode change neither safe mode nor replacement text. The correspondence check compares '
         'option state after every step of 1-4 call sequences with a reference state machine written from the statement, and with the model.',
    note=COMMON_NOTE + 'Full strength for the model. Python values passed as options are modelled by the PyVal type (None, bool, int, float repr, str).',
    technique='Lean 4 proof: option state machine (equational) + invariant over reachable sessions + differential correspondence',
    ref='7 C20'),
}

def main():
    props = [json.loads(l) for l in open(os.path.join(VERIF, 'properties.jsonl'))]
    checks = []
    na = []
    for p in props:
        pid = p['id']
        if pid in CLAIMS and os.path.exists(os.path.join(VERIF, 'lean', 'RimuProofs', 'Props', pid + '.lean')):
            c = CLAIMS[pid]
            checks.append({
                'property_id': pid,
                'quick_cmd': './check %s --tier quick' % pid,
                'thorough_cmd': './check %s --tier thorough' % pid,
                'evidence_file': 'evidence/%s.json' % pid,
                'replay_cmd_template': './check %s --replay {path}' % pid,
                'engine': 'lean-model',
                'level_claimed': {'category': 'proof', 'text': c['text'], 'design_ref': 'DESIGN.md section ' + c['ref']},
                'level_note': c['note'],
                'technique': c['technique'],
            })
        else:
            na.append({'property_id': pid, 'reason': 'not claimed in this commit: the property theorems (lean/RimuProofs/Props/%s.lean) are not written yet; '
                       'the oracle and correspondence surface exist in tools/harness' % pid})
    m = {
        'version': 1,
        'setup_cmd': './setup.sh',
        'hooks': {'guard': 'RIMU_PY_VERIF', 'enable': 'no hooks are needed: state is read from module globals, diagnostics through the public callback '
                  '(the checks export RIMU_PY_VERIF=1 for uniformity; nothing in /repo reads it)',
                  'baseline_off_cmd': 'cd /repo && /venv/bin/python -m pytest -ra -q -p no:cacheprovider --timeout=900 --continue-on-collection-errors',
                  'source_commits': [], 'add_only': True},
        'engines': [{'name': 'lean-model', 'path': 'lean/', 'serves_properties': [c['property_id'] for c in checks],
                     'kind_free_text': 'Lean 4 executable model of rimu-py (regex matcher, renderer, CLI) regenerated tables from /repo on every run, '
                                       'property theorems in lean/RimuProofs/Props, native driver behind a line protocol for the correspondence check'}],
        'checks': checks,
        'notes': 'Every check: regenerate lean/RimuModel/Generated from /repo, lake build model + driver + closure of the property theorems, axiom audit, '
                 'correspondence + concrete oracle on the property surface, known findings replayed (known_findings.json). See DESIGN.md.',
        'not_applicable': na,
    }
    with open(os.path.join(VERIF, 'MANIFEST.json'), 'w') as f:
        json.dump(m, f, indent=1)
    print('checks', len(checks), 'not claimed', len(na))

if __name__ == '__main__':
    main()
