#!/usr/bin/env python3
"""Writes MANIFEST.json from the table below (kept in one place so that it stays valid)."""
import json, os
HERE = os.path.dirname(os.path.abspath(__file__))
VERIF = os.path.dirname(HERE)

COMMON_NOTE = ('Trusted: Lean 4.33 kernel; axioms propext, Classical.choice, Quot.sound only (audited with #print axioms on every run); '
               'the translator (CPython re._parser -> Re, Unicode tables from the interpreter); the hand-written Lean mirror of the Python '
               'control flow, tied to the code only by the correspondence check (model driver vs implementation in-process); model matcher = sre '
               'on the well-formed fragment (validated, not proved). ')

CLAIMS = {
 'C04': dict(
    text='Proved for the model, for every source, session state, fuel and compile oracle: a document render started in a non-zero safe mode '
         'leaves quote/replacement/block definitions, replacement text and safe mode unchanged, and macro definitions unless bit 8 is set '
         '(relation Step pushed through all of the block and inline layers by induction on fuel). The correspondence check compares module-table '
         'snapshots of implementation and model after untrusted renders that follow trusted preambles.',
    note=COMMON_NOTE + 'Full strength for the model; object aliasing in the Python code is not expressible in the model and is covered by the snapshots only.',
    technique='Lean 4 proof: invariant relation (Step) by weakest-precondition tactic over the whole model + differential correspondence',
    ref='7 C04'),
}

def main():
    props = [json.loads(l) for l in open(os.path.join(VERIF, 'properties.jsonl'))]
    checks = []
    na = []
    for p in props:
        pid = p['id']
        if pid in CLAIMS and os.path.exists(os.path.join(VERIF, 'lean', 'RimuProofs', 'Props', pid + '.lean')):
            c = CLAIMS[pid]
            checks.append({
                'property_id': pid,
                'quick_cmd': './check %s --tier quick' % pid,
                'thorough_cmd': './check %s --tier thorough' % pid,
                'evidence_file': 'evidence/%s.json' % pid,
                'replay_cmd_template': './check %s --replay {path}' % pid,
                'engine': 'lean-model',
                'level_claimed': {'category': 'proof', 'text': c['text'], 'design_ref': 'DESIGN.md section ' + c['ref']},
                'level_note': c['note'],
                'technique': c['technique'],
            })
        else:
            na.append({'property_id': pid, 'reason': 'not claimed in this commit: the property theorems (lean/RimuProofs/Props/%s.lean) are not written yet; '
                       'the oracle and correspondence surface exist in tools/harness' % pid})
    m = {
        'version': 1,
        'setup_cmd': './setup.sh',
        'hooks': {'guard': 'RIMU_PY_VERIF', 'enable': 'no hooks are needed: state is read from module globals, diagnostics through the public callback '
                  '(the checks export RIMU_PY_VERIF=1 for uniformity; nothing in /repo reads it)',
                  'baseline_off_cmd': 'cd /repo && /venv/bin/python -m pytest -ra -q -p no:cacheprovider --timeout=900 --continue-on-collection-errors',
                  'source_commits': [], 'add_only': True},
        'engines': [{'name': 'lean-model', 'path': 'lean/', 'serves_properties': [c['property_id'] for c in checks],
                     'kind_free_text': 'Lean 4 executable model of rimu-py (regex matcher, renderer, CLI) regenerated tables from /repo on every run, '
                                       'property theorems in lean/RimuProofs/Props, native driver behind a line protocol for the correspondence check'}],
        'checks': checks,
        'notes': 'Every check: regenerate lean/RimuModel/Generated from /repo, lake build model + driver + closure of the property theorems, axiom audit, '
                 'correspondence + concrete oracle on the property surface, known findings replayed (known_findings.json). See DESIGN.md.',
        'not_applicable': na,
    }
    with open(os.path.join(VERIF, 'MANIFEST.json'), 'w') as f:
        json.dump(m, f, indent=1)
    print('checks', len(checks), 'not claimed', len(na))

if __name__ == '__main__':
    main()
