#!/venv/bin/python
"""Mutation testing of the checks themselves (development tool, not registered in the manifest).

Generates first-order mutants of /repo/src (comparison / boolean / constant / statement-deletion / regex-text operators),
keeps the ones the repository's own 34 tests do not notice, and runs the property generators (oracle + model
correspondence, the already built driver) against each survivor in a scratch copy.  A survivor that no property
notices is either equivalent / outside every property, or a gap in a generator: the list is what the generators are
extended from.  Nothing is ever written to /repo; scratch copies live under --work (default /tmp/mutants) and are
removed at the end.

usage: tools/mutants.py [--files a.py,b.py] [--max N] [--jobs 14] [--n 200] [--out scratch/mutants.json] [--ops cmp,bool,...]
"""
import argparse
import ast
import json
import os
import random
import re
import shutil
import subprocess
import sys
import time
from concurrent.futures import ThreadPoolExecutor

VERIF = os.path.dirname(os.path.dirname(os.path.abspath(__file__)))
REPO = os.environ.get('RIMU_REPO', '/repo')
PY = '/venv/bin/python'

CMP = {ast.Eq: '!=', ast.NotEq: '==', ast.Lt: '<=', ast.LtE: '<', ast.Gt: '>=', ast.GtE: '>', ast.Is: 'is not', ast.IsNot: 'is',
       ast.In: 'not in', ast.NotIn: 'in'}
BIN = {ast.Add: '-', ast.Sub: '+', ast.BitAnd: '|', ast.BitOr: '&', ast.Mult: '+'}


def seg(src_lines, node):
    """(start offset, end offset) of a node in the joined source"""
    return (node.lineno, node.col_offset, node.end_lineno, node.end_col_offset)


class Collector(ast.NodeVisitor):
    def __init__(self, src):
        self.src = src
        self.lines = src.split('\n')
        self.off = [0]
        for l in self.lines:
            self.off.append(self.off[-1] + len(l.encode('utf8')) + 1)
        self.bsrc = src.encode('utf8')
        self.muts = []      # (kind, start byte, end byte, replacement text, description)
        self.func = []

    def pos(self, node):
        return self.off[node.lineno - 1] + node.col_offset, self.off[node.end_lineno - 1] + node.end_col_offset

    def text(self, node):
        a, b = self.pos(node)
        return self.bsrc[a:b].decode('utf8')

    def add(self, kind, a, b, repl, node):
        where = '%s:%d' % ('.'.join(self.func) or '<module>', node.lineno)
        self.muts.append((kind, a, b, repl, where))

    def visit_FunctionDef(self, node):
        self.func.append(node.name)
        self.generic_visit(node)
        self.func.pop()

    def visit_ClassDef(self, node):
        self.func.append(node.name)
        self.generic_visit(node)
        self.func.pop()

    def visit_Compare(self, node):
        if len(node.ops) == 1 and type(node.ops[0]) in CMP:
            la, lb = self.pos(node.left)
            ra, rb = self.pos(node.comparators[0])
            self.add('cmp', lb, ra, ' %s ' % CMP[type(node.ops[0])], node)
        self.generic_visit(node)

    def visit_BoolOp(self, node):
        for x, y in zip(node.values, node.values[1:]):
            _, xb = self.pos(x)
            ya, _ = self.pos(y)
            between = self.bsrc[xb:ya].decode('utf8')
            word = 'and' if isinstance(node.op, ast.And) else 'or'
            other = 'or' if word == 'and' else 'and'
            if re.search(r'\b%s\b' % word, between):
                self.add('bool', xb, ya, re.sub(r'\b%s\b' % word, other, between, count=1), node)
        # drop one operand
        for v in node.values:
            a, b = self.pos(v)
            self.add('bool-drop', a, b, 'True' if isinstance(node.op, ast.And) else 'False', node)
        self.generic_visit(node)

    def visit_UnaryOp(self, node):
        if isinstance(node.op, ast.Not):
            a, b = self.pos(node)
            oa, ob = self.pos(node.operand)
            self.add('not', a, b, '(' + self.bsrc[oa:ob].decode('utf8') + ')', node)
        self.generic_visit(node)

    def visit_If(self, node):
        a, b = self.pos(node.test)
        self.add('if-true', a, b, 'True', node)
        self.add('if-false', a, b, 'False', node)
        self.generic_visit(node)

    def visit_While(self, node):
        self.generic_visit(node)

    def visit_IfExp(self, node):
        a, b = self.pos(node.test)
        self.add('if-true', a, b, 'True', node)
        self.add('if-false', a, b, 'False', node)
        self.generic_visit(node)

    def visit_BinOp(self, node):
        if type(node.op) in BIN:
            _, lb = self.pos(node.left)
            ra, _ = self.pos(node.right)
            self.add('binop', lb, ra, ' %s ' % BIN[type(node.op)], node)
        self.generic_visit(node)

    def visit_Constant(self, node):
        a, b = self.pos(node)
        v = node.value
        if v is True or v is False:
            self.add('const', a, b, str(not v), node)
        elif isinstance(v, int):
            self.add('const', a, b, str(v + 1), node)
            if v > 0:
                self.add('const', a, b, str(v - 1), node)
        elif isinstance(v, str) and self.func and not self.text(node).startswith(('"""', "'''")):
            t = self.text(node)
            if len(v) >= 1 and ('\\' in t or any(c in v for c in '^$*+?[](|')) and (t.startswith(('r"', "r'", 'f', 'rf', 'fr')) or True):
                self.regex_muts(node, a, b, t)
            elif v == '':
                pass
        self.generic_visit(node)

    def regex_muts(self, node, a, b, t):
        # textual mutations of what looks like a regular expression (also applied at module level, see visit)
        cands = []
        for m in re.finditer(r'\+\?|\*\?|\+|\*|\?', t):
            g = m.group(0)
            for r in {'+?': ['+'], '*?': ['*'], '+': ['*'], '*': ['+'], '?': ['']}[g]:
                cands.append((m.start(), m.end(), r))
        for m in re.finditer(r'\^|\$', t):
            cands.append((m.start(), m.end(), ''))
        for m in re.finditer(r'\\s|\\S|\\w|\\d', t):
            cands.append((m.start(), m.end(), {'\\s': '\\S', '\\S': '\\s', '\\w': '\\d', '\\d': '\\w'}[m.group(0)]))
        random.Random(len(t) * 7919 + node.lineno).shuffle(cands)
        for s_, e_, r in cands[:4]:
            nt = t[:s_] + r + t[e_:]
            try:
                ast.literal_eval(nt)
            except Exception:   # noqa
                continue
            self.add('regex', a, b, nt, node)

    def visit_Module(self, node):
        # module-level string constants inside re.compile(...) calls are regexes too
        for n in ast.walk(node):
            if isinstance(n, ast.Call) and isinstance(n.func, ast.Attribute) and n.func.attr in ('compile', 'match', 'search', 'sub') \
                    and n.args and isinstance(n.args[0], ast.Constant) and isinstance(n.args[0].value, str):
                c = n.args[0]
                a, b = self.pos(c)
                if not self._inside_func(node, c):
                    self.regex_muts(c, a, b, self.text(c))
        self.generic_visit(node)

    def _inside_func(self, module, target):
        for f in ast.walk(module):
            if isinstance(f, (ast.FunctionDef, ast.AsyncFunctionDef)):
                if f.lineno <= target.lineno <= f.end_lineno:
                    return True
        return False

    def stmt_deletions(self, tree):
        for n in ast.walk(tree):
            body_lists = [getattr(n, f) for f in ('body', 'orelse', 'finalbody') if isinstance(getattr(n, f, None), list)]
            for body in body_lists:
                for st in body:
                    if isinstance(st, (ast.Expr, ast.Assign, ast.AugAssign)) and not (isinstance(st, ast.Expr) and isinstance(st.value, ast.Constant)):
                        if not any(isinstance(p, (ast.FunctionDef,)) and p.lineno <= st.lineno <= p.end_lineno for p in ast.walk(tree)):
                            continue    # module level statements stay
                        a, b = self.pos(st)
                        self.add('del-stmt', a, b, 'pass', st)
                    elif isinstance(st, ast.Continue):
                        a, b = self.pos(st)
                        self.add('flow', a, b, 'break', st)
                    elif isinstance(st, ast.Break):
                        a, b = self.pos(st)
                        self.add('flow', a, b, 'continue', st)
                    elif isinstance(st, ast.Return) and st.value is not None and not isinstance(st.value, ast.Constant):
                        a, b = self.pos(st.value)
                        # return the first argument / an empty value instead
                    # swap adjacent simple statements is not attempted


def sh(cmd, env=None, timeout=None, cwd=None):
    try:
        r = subprocess.run(cmd, shell=True, capture_output=True, text=True, env=env, timeout=timeout, cwd=cwd)
        return r.returncode, r.stdout + r.stderr
    except subprocess.TimeoutExpired:
        return 124, 'timeout'


def apply_mutant(copy, m, base):
    path = os.path.join(copy, 'src', m['file'])
    b = open(os.path.join(base, 'src', m['file']), 'rb').read()
    open(path, 'wb').write(b[:m['start']] + m['new_full'].encode('utf8') + b[m['end']:])


def restore(copy, m, base):
    shutil.copyfile(os.path.join(base, 'src', m['file']), os.path.join(copy, 'src', m['file']))


def worker(idx, queue, base, work, args, results):
    copy = os.path.join(work, 'w%d' % idx)
    shutil.copytree(base, copy)
    env = dict(os.environ, PYTHONPATH=os.path.join(copy, 'src'), RIMU_REPO=copy, PYTHONDONTWRITEBYTECODE='1', RIMU_PY_VERIF='1')
    while True:
        try:
            m = queue.pop()
        except IndexError:
            break
        apply_mutant(copy, m, base)
        t0 = time.time()
        if m.get('skip_tests'):
            passed = True
        else:
            rc, out = sh('%s -m pytest -q -x -p no:cacheprovider 2>&1 | tail -3' % PY, env=env, timeout=120, cwd=copy)
            passed = re.search(r'(\d+) passed', out) and 'failed' not in out and 'error' not in out.lower()
        r = dict(m)
        r.pop('new_full', None)
        r.pop('skip_tests', None)
        if not passed:
            r['status'] = 'killed-by-tests'
        else:
            order = args.order_for(m['file'])
            rc, out = sh('%s %s/tools/mutant_eval.py %d %s' % (PY, VERIF, args.n, ' '.join(order)), env=env, timeout=args.eval_timeout, cwd=VERIF)
            last = [l for l in out.strip().split('\n') if l.startswith('RESULT ')]
            if rc == 124:
                r['status'] = 'detected'
                r['by'] = 'timeout'
            elif last:
                res = json.loads(last[-1][7:])
                r['status'] = 'detected' if res['detected_by'] else 'undetected'
                r['by'] = res['detected_by']
                r['how'] = res.get('how')
            else:
                r['status'] = 'eval-error'
                r['log'] = out[-600:]
        r['secs'] = round(time.time() - t0, 1)
        restore(copy, m, base)
        results.append(r)
        print('[%d left] %-16s %s %s %s: %r -> %r  %s' % (len(queue), r['status'], r['file'], r['where'], r['kind'], r['old'][:40], r['new'][:40],
                                                        r.get('by', '')), flush=True)
    shutil.rmtree(copy, ignore_errors=True)


ANCHORS = None


def order_for(rel):
    """properties anchored in the file first, then the rest"""
    global ANCHORS
    if ANCHORS is None:
        ANCHORS = {}
        for l in open(os.path.join(VERIF, 'properties.jsonl')):
            d = json.loads(l)
            ANCHORS[d['id']] = d['anchors']['files']
    first = [p for p, fs in ANCHORS.items() if any(f.endswith(rel) for f in fs)]
    rest = [p for p in ANCHORS if p not in first]
    return first + rest


def main():
    ap = argparse.ArgumentParser()
    ap.add_argument('--files', default='')
    ap.add_argument('--max', type=int, default=0)
    ap.add_argument('--jobs', type=int, default=14)
    ap.add_argument('--n', type=int, default=200)
    ap.add_argument('--ops', default='')
    ap.add_argument('--seed', type=int, default=1)
    ap.add_argument('--work', default='/tmp/mutants')
    ap.add_argument('--out', default=os.path.join(VERIF, 'scratch', 'mutants.json'))
    ap.add_argument('--eval-timeout', type=int, default=900)
    ap.add_argument('--recheck', help='re-evaluate the test-surviving mutants of an earlier result file (skips pytest)')
    args = ap.parse_args()
    args.order_for = order_for
    shutil.rmtree(args.work, ignore_errors=True)
    base = os.path.join(args.work, 'base')
    os.makedirs(base)
    rc, out = sh('git -C %s archive HEAD | tar -x -C %s' % (REPO, base))
    assert rc == 0, out
    files = []
    for root, _d, fs in os.walk(os.path.join(base, 'src')):
        for f in sorted(fs):
            if f.endswith('.py') and f not in ('__init__.py', '__main__.py', 'resources.py'):
                rel = os.path.relpath(os.path.join(root, f), os.path.join(base, 'src'))
                if not args.files or any(rel.endswith(x) for x in args.files.split(',')):
                    files.append(rel)
    ops = set(args.ops.split(',')) if args.ops else None
    muts = []
    for rel in sorted(files):
        src = open(os.path.join(base, 'src', rel), encoding='utf8').read()
        c = Collector(src)
        tree = ast.parse(src)
        c.visit(tree)
        c.stmt_deletions(tree)
        seen = set()
        for kind, a, b, repl, where in c.muts:
            if ops and kind.split('-')[0] not in ops and kind not in ops:
                continue
            new = c.bsrc[:a] + repl.encode('utf8') + c.bsrc[b:]
            if new == c.bsrc or (a, b, repl) in seen:
                continue
            seen.add((a, b, repl))
            try:
                ast.parse(new.decode('utf8'))
            except SyntaxError:
                continue
            muts.append({'file': rel, 'kind': kind, 'where': where, 'old': c.bsrc[a:b].decode('utf8')[:160], 'new': repl[:160],
                         'new_full': repl, 'start': a, 'end': b})
    if args.recheck:
        prev = json.load(open(args.recheck))['results']
        keep = {(r['file'], r['start'], r['end'], r['new']) for r in prev if r['status'] != 'killed-by-tests'}
        muts = [m for m in muts if (m['file'], m['start'], m['end'], m['new']) in keep]
        for m in muts:
            m['skip_tests'] = True
    rng = random.Random(args.seed)
    rng.shuffle(muts)
    if args.max:
        muts = muts[:args.max]
    print('mutants:', len(muts), 'files:', len(files), flush=True)
    queue = list(muts)
    results = []
    with ThreadPoolExecutor(max_workers=args.jobs) as ex:
        futs = [ex.submit(worker, i, queue, base, args.work, args, results) for i in range(args.jobs)]
        for f in futs:
            f.result()
    shutil.rmtree(args.work, ignore_errors=True)
    summary = {}
    for r in results:
        summary[r['status']] = summary.get(r['status'], 0) + 1
    os.makedirs(os.path.dirname(args.out), exist_ok=True)
    with open(args.out, 'w') as f:
        json.dump({'summary': summary, 'results': sorted(results, key=lambda r: (r['status'], r['file'], r['start']))}, f, indent=1)
    print('summary', summary)
    for r in results:
        if r['status'] in ('undetected', 'eval-error'):
            print('UNDETECTED' if r['status'] == 'undetected' else 'EVAL-ERROR', r['file'], r['where'], r['kind'], repr(r['old']), '->', repr(r['new']),
                  r.get('log', ''))


if __name__ == '__main__':
    main()
