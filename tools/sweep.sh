#!/bin/bash
# usage: tools/sweep.sh "<seeds>" [tier]   -- every check on the current tree with several seeds; prints only the problems
cd "$(dirname "$0")/.."
tier=${2:-quick}
bad=0
for seed in $1; do
  for p in C01 C02 C03 C04 C05 C06 C07 C08 C09 C10 C11 C12 C13 C14 C15 C16 C17 C18 C19 C20; do
    out=$(VERIF_SEED=$seed ./check $p --tier $tier 2>&1); rc=$?
    if [ $rc -ne 0 ] || echo "$out" | grep -q VIOLATION; then bad=1; echo "seed=$seed $p rc=$rc :: $(echo "$out" | grep -E 'VIOLATION|quick:|thorough:' | tr '\n' ' ')"; fi
  done
done
echo "sweep done bad=$bad"
