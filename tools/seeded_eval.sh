#!/bin/bash
# usage: tools/seeded_eval.sh <seeded dir name> <property id> [more ids]  -- applies the change to /repo, runs the checks, undoes it
name="$1"; shift
VERIF=$(cd "$(dirname "$0")/.." && pwd)
REPO=${RIMU_REPO:-/repo}
cd $REPO && git apply $VERIF/seeded/$name/patch.diff || exit 2
cd $VERIF
# evidence of a run on a changed tree does not belong in evidence/ (committed: describes the unchanged tree)
export VERIF_EVIDENCE_DIR=$VERIF/scratch/seeded-evidence; mkdir -p $VERIF_EVIDENCE_DIR
for pid in "$@"; do
  out=$(./check $pid --tier quick 2>&1); rc=$?
  out=$(echo "$out" | grep -v NOT-CHECKED)
  echo "[$name] $pid exit=$rc :: $(echo "$out" | grep -E 'VIOLATION' | head -2 | tr '\n' ' ') :: $(echo "$out" | tail -1)"
done
git -C $REPO checkout -- . 
