#!/bin/bash
# usage: tools/seeded_eval.sh <seeded dir name> <property id> [more ids]  -- applies the change to /repo, runs the checks, undoes it
name="$1"; shift
cd /repo && git apply /verif/seeded/$name/patch.diff || exit 2
cd /verif
for pid in "$@"; do
  out=$(./check $pid --tier quick 2>&1); rc=$?
  out=$(echo "$out" | grep -v NOT-CHECKED)
  echo "[$name] $pid exit=$rc :: $(echo "$out" | grep -E 'VIOLATION|KNOWN' | head -3 | tr '\n' ' ') :: $(echo "$out" | tail -1)"
done
git -C /repo checkout -- . 
